"""C18 - drillhole positions follow the survey (DESIGN.md §4 C18).

Two exhaustive enumerations, both executed on the real library:

PATH   collar x survey table (1..3/4 rows, non-decreasing depths incl. repeated and zero, every
       azimuth / dip of the lattice) x environment answer for the unwritten slots of
       ``np.divide(where=)`` in compute_deviation (0, 1e300, inf, nan; DESIGN §1.3), followed by the
       setter sequence  create -> collar=... -> surveys=... -> reopen  with ALL query depths
       (0, stations, mid / quarter points, both float neighbours of every station, beyond the end)
       judged after every step against mc/c18_ref.py (the statement, not the library).
DATA   all histories of add_data(depth ...) / add_data(from-to ...) / reopen up to the tier's
       length on two surveyed holes, tagged values; after every addition (live) and after the
       final close + re-open: every vertex with a DEPTH sits at the position of that depth, every
       cell joins the positions of its FROM and TO, every tagged value is still found at its
       depth / interval (within the collocation distance it was added with) and nowhere else.
"""

from __future__ import annotations

import io
import itertools
import math

import numpy as np

from .. import c18_ref as ref
from .. import core, world

# ---------------------------------------------------------------------------
# environment: the unwritten slots of np.divide(..., where=mask) (no out=) are uninitialised
# memory by numpy's contract.  The drillhole module's `np` is proxied so that those slots hold
# an enumerated value instead of whatever the allocator returns.
# ---------------------------------------------------------------------------
POISONS = {"0": 0.0, "1e300": 1e300, "inf": math.inf, "nan": math.nan}


class _NpProxy:
    def __init__(self, poison: float):
        self._poison = poison
        self.unwritten = 0

    def __getattr__(self, name):
        return getattr(np, name)

    def divide(self, x1, x2, *args, **kw):
        where = kw.get("where", True)
        if args or kw.get("out") is not None or where is True:
            return np.divide(x1, x2, *args, **kw)
        shape = np.broadcast(np.asarray(x1), np.asarray(x2), np.asarray(where)).shape
        out = np.full(shape, self._poison, dtype=np.result_type(x1, x2, np.float64))
        self.unwritten += int(np.size(where) - np.count_nonzero(where))
        kw["out"] = out
        return np.divide(x1, x2, **kw)


class poisoned:
    def __init__(self, name: str):
        self.proxy = _NpProxy(POISONS[name])

    def __enter__(self):
        import geoh5py.objects.drillhole as dm

        self.dm = dm
        dm.np = self.proxy
        return self.proxy

    def __exit__(self, *exc):
        self.dm.np = np
        return False


def _lib():
    from geoh5py.objects import Drillhole
    from geoh5py.workspace import Workspace

    return Workspace, Drillhole


def _reopen(ws, mode, name="hole"):
    Workspace, _ = _lib()
    ws.close()
    ws2 = Workspace(io.BytesIO(ws.h5file.getvalue()), mode=mode)
    holes = [o for o in ws2.objects if o.name == name]
    return ws2, holes[0]


# ===========================================================================
# PATH cases
# ===========================================================================
def _positions(dh, qs, form):
    arg = list(qs) if form == "list" else np.asarray(qs, dtype=float)
    return np.asarray(dh.desurvey(arg), dtype=float).reshape((-1, 3)).tolist()


def _judge_fresh(collar, table, qs):
    """Same (collar, table, environment answer) on a brand-new hole in a brand-new workspace:
    separates a wrong formula from state left behind by earlier steps."""
    Workspace, Drillhole = _lib()
    ws = Workspace()
    try:
        dh = Drillhole.create(ws, name="hole", collar=list(collar), surveys=np.asarray(table, dtype=float))
        return ref.judge_path(ref.Path(collar, table), qs, _positions(dh, qs, "array"))
    except Exception as err:  # pylint: disable=broad-except
        return [("position-is-computed", f"raises:{type(err).__name__}", {})]
    finally:
        ws.close()


def run_path(h):
    """h = {"kind": "path", "steps": [[op, arg...], ...]}; ops: poison (environment answer from
    now on), create / create-bare (a NEW hole, judged from then on), collar, surveys, reopen."""
    Workspace, Drillhole = _lib()
    world.reset("asc")
    viol, outcome, states, ntrans = [], [], [], 0
    collar = table = None
    poison = "0"
    with poisoned(poison) as proxy:
        ws = Workspace()
        dh, nholes = None, 0
        for k, step in enumerate(h["steps"]):
            op = step[0]
            if op == "poison":
                poison = step[1]
                proxy._poison = POISONS[poison]  # pylint: disable=protected-access
                continue
            pos = qs = None
            try:
                if op == "create":
                    collar, table = step[1], step[2]
                    nholes += 1
                    dh = Drillhole.create(ws, name=f"hole{nholes}", collar=list(collar), surveys=np.asarray(table, dtype=float))
                elif op == "create-bare":  # as in the repository's tests: bare hole, then the two setters
                    collar, table = step[1], step[2]
                    nholes += 1
                    dh = Drillhole.create(ws, name=f"hole{nholes}")
                    dh.surveys = np.asarray(table, dtype=float)
                    dh.collar = np.asarray(collar, dtype=float)
                elif op == "collar":
                    collar = step[1]
                    dh.collar = list(collar)
                elif op == "surveys":
                    table = step[1]
                    dh.surveys = np.asarray(table, dtype=float)
                elif op == "reopen":
                    ws, dh = _reopen(ws, step[1], f"hole{nholes}")
                else:
                    raise core.HarnessError(f"unknown step {step!r}")
                ntrans += 1
                path = ref.Path(collar, table)
                qs = path.queries()
                pos = _positions(dh, qs, "array")
                ntrans += 1
                vl = ref.judge_path(path, qs, pos)
                if op.startswith("create"):  # the list form of the same query is the same computation
                    pos_l = _positions(dh, qs, "list")
                    ntrans += 1
                    if core.jdump(pos_l) != core.jdump(pos):
                        vl.append(("lies-on-surveyed-path", "list-and-array-queries-differ", {}))
            except core.HarnessError:
                raise
            except Exception as err:  # pylint: disable=broad-except
                vl = [("position-is-computed", f"raises:{type(err).__name__}:{op}", {"error": repr(err)[:200]})]
            nonfinite = poison in ("inf", "nan")
            for clause, witness, detail in vl:
                if clause == "position-is-finite":
                    witness += f":unwritten-divide-output-{'nonfinite' if nonfinite else 'finite'}"
                elif not op.startswith("create") and qs is not None:
                    fresh = _judge_fresh(collar, table, qs)
                    if not any(c == clause and w == witness for c, w, _ in fresh):
                        witness = f"history-dependent:after-{op}:{witness}"
                detail = dict(detail, step=k, op=op, collar=collar, table=table, poison=poison)
                if not any(c == clause and w == witness for c, w, _ in viol):
                    viol.append((clause, witness, detail))
            states.append(core.digest([collar, table, poison, op == "reopen"]))
            outcome.append(core.digest(np.round(np.asarray(pos, dtype=float), 9).tolist()) if pos is not None else "raised")
            if pos is None:
                break
        try:
            ws.close()
        except Exception:  # pylint: disable=broad-except
            pass
        unwritten = proxy.unwritten
    return {"viol": viol, "outcome": core.digest(outcome), "states": states, "transitions": ntrans, "unwritten": unwritten}


# ---------------------------------------------------------------------------
# lattices (all numbers exactly representable in float32: surveys are stored as float32)
DEPTHS = [0.0, 5.0, 10.0, 20.0]
AZ = [0.0, 90.0, 225.0, 370.0]
DIP = [-90.0, -45.0, 0.0, 30.0]
D16 = [(a, d) for a in AZ for d in DIP]
D4 = [(0.0, -90.0), (90.0, -45.0), (225.0, 0.0), (370.0, 30.0)]
D6 = D4 + [(0.0, 0.0), (225.0, -45.0)]
D3 = [(0.0, -90.0), (90.0, -45.0), (225.0, 30.0)]
COLLARS = [[0.0, 0.0, 0.0], [10.0, -5.0, 100.0]]
# the two surveyed holes of the DATA part belong to the PATH lattice as well
TA = [[0.0, 0.0, -90.0], [1.5, 90.0, -45.0], [3.0, 225.0, -30.0]]
TB = [[1.0, 370.0, -60.0], [2.5, 90.0, 0.0]]


def _tables(quick: bool):
    def depth_seqs(k):
        return list(itertools.combinations_with_replacement(DEPTHS, k))

    def build(seq, dirs):
        return [[d, a, p] for d, (a, p) in zip(seq, dirs)]

    seen, out = set(), []

    def add(t):
        key = core.jdump(t)
        if key not in seen:
            seen.add(key)
            out.append(t)

    for seq in depth_seqs(1):
        for d in D16:
            add(build(seq, [d]))
    for seq in depth_seqs(2):
        for d in D16:
            add(build(seq, [d, d]))
        for d1 in D16:
            for d2 in D4 if quick else D16:
                add(build(seq, [d1, d2]))
    for seq in depth_seqs(3):
        for dirs in itertools.product(D4 if quick else D6, repeat=3):
            add(build(seq, dirs))
    if not quick:
        for seq in depth_seqs(4):
            for dirs in itertools.product(D3, repeat=4):
                add(build(seq, dirs))
    add(TA)
    add(TB)
    return out


def _path_cases(quick: bool, seed: int):
    tables = _tables(quick)
    n = len(tables)
    cases = []
    for i, t in enumerate(tables):
        zero = ref.Path(COLLARS[0], t).has_zero_leg()
        ca, cb = COLLARS[i % 2], COLLARS[(i + 1) % 2]
        other = tables[(i * 7 + 37) % n]
        create = "create-bare" if i % 5 == 4 else "create"
        steps = []
        # every answer of the environment where it can be observed (a leg of zero length); one
        # extreme answer elsewhere to measure that it cannot
        for p in ("nan", "inf", "1e300") if zero else ("nan",):
            steps += [["poison", p], ["create", cb, t]]
        steps += [["poison", "0"], [create, ca, t], ["collar", cb], ["surveys", other], ["collar", ca], ["reopen", "r"]]
        cases.append({"kind": "path", "steps": steps})
    if seed:
        r = seed % len(cases)
        cases = cases[r:] + cases[:r]
        cases.sort(key=lambda c: len(c["steps"][1][2]))  # stable: simplest tables first
    return cases, n


# ===========================================================================
# DATA cases
# ===========================================================================
DSETS = {"s123": [1.0, 2.0, 3.0], "s312": [3.0, 1.0, 2.0], "s1c": [1.0, 2.005], "s24": [2.0, 4.0]}
ISETS = {
    "A": [[0.0, 1.0], [1.0, 2.0]],
    "B": [[0.5, 1.5]],
    "C": [[0.0, 1.0]],
    "E": [[0.004, 1.003], [2.0, 3.0]],
    "F": [[2.0, 3.0], [0.0, 1.0]],
}
TOLS = [None, 1e-4, 0.5]


def _alphabet(full: bool):
    ops = []
    for s in DSETS.values():
        for t in TOLS:
            ops.append(["depth", s, t])
    if full:
        for s in ISETS.values():
            for t in TOLS:
                ops.append(["interval", s, t, "float"])
        for k in ("A", "C", "E"):
            for t in TOLS:
                ops.append(["interval", ISETS[k], t, "text"])
    else:
        for k in "ABCEF":
            ops.append(["interval", ISETS[k], None, "float"])
        ops += [["interval", ISETS["E"], 1e-4, "float"], ["interval", ISETS["E"], 0.5, "float"], ["interval", ISETS["C"], 0.5, "float"]]
        ops += [["interval", ISETS["E"], None, "text"], ["interval", ISETS["C"], 0.5, "text"], ["interval", ISETS["A"], None, "text"]]
    ops.append(["reopen"])
    return ops


def _tag(k, j, kind):
    return f"value-{k}-{j}" if kind == "text" else float(100 * (k + 1) + j)


def _txt(v):
    if isinstance(v, bytes):
        v = v.decode("utf-8", "replace")
    return v


def _values_of(data, n):
    """values of a data object as a list of length n (missing / no-data -> None)."""
    vals = None if data is None else data.values
    out = [None] * n
    if vals is None:
        return out
    vals = np.asarray(vals).ravel().tolist() if not isinstance(vals, str) else [vals]
    for i, v in enumerate(vals[:n]):
        v = _txt(v)
        if isinstance(v, float) and math.isnan(v):
            v = None
        if isinstance(v, str) and v in ("", "nan"):
            v = None
        out[i] = v
    if len(vals) > n:
        out.append("<longer-than-geometry>")
    return out


def observe_hole(dh):
    verts = dh.vertices
    verts = np.zeros((0, 3)) if verts is None else np.asarray(verts, dtype=float).reshape((-1, 3))
    cells = dh.cells
    cells = np.zeros((0, 2), dtype=int) if cells is None else np.asarray(cells).reshape((-1, 2)).astype(int)
    n, m = len(verts), len(cells)
    named = {}
    for child in dh.children:
        if hasattr(child, "association") and hasattr(child, "values"):
            named.setdefault(child.name, []).append(child)
    data = {}
    dup = sorted(k for k, v in named.items() if len(v) > 1)
    for name, lst in named.items():
        assoc = getattr(lst[0].association, "name", None)
        data[name] = {"assoc": assoc, "values": _values_of(lst[0], n if assoc == "VERTEX" else m if assoc == "CELL" else 1)}
    depth = data.get("DEPTH", {}).get("values", [None] * n)
    want = sorted({d for d in depth if isinstance(d, float)} | {d for k in ("FROM", "TO") for d in data.get(k, {}).get("values", []) if isinstance(d, float)})
    lib = {}
    if want:
        pos = np.asarray(dh.desurvey(np.asarray(want, dtype=float)), dtype=float).reshape((-1, 3)).tolist()
        lib = dict(zip(want, pos))
    return {"vertices": verts.tolist(), "cells": cells.tolist(), "data": data, "dup": dup, "lib": lib}


def _pad(lst, n):
    lst = list(lst or [])
    return (lst + [None] * n)[:n] if len(lst) <= n else lst


def judge_data(path, obs, adds):
    """Literal reading of the second sentence of the statement on one observed state."""
    out = []

    def fail(clause, witness, **detail):
        if not any(c == clause and w == witness for c, w, _ in out):
            out.append((clause, witness, detail))

    V, C, data = obs["vertices"], obs["cells"], obs["data"]
    n, m = len(V), len(C)
    depth = _pad(data.get("DEPTH", {}).get("values"), n)
    frm = _pad(data.get("FROM", {}).get("values"), m)
    to = _pad(data.get("TO", {}).get("values"), m)
    if obs["dup"]:
        fail("value-stays-at-its-depth", "duplicate-data-name", names=obs["dup"])
    for name, arr, size in (("DEPTH", depth, n), ("FROM", frm, m), ("TO", to, m)):
        if len(arr) > size:
            fail("vertex-at-position-of-its-depth" if name == "DEPTH" else "cell-joins-from-and-to-positions",
                 f"{name}-longer-than-geometry", length=len(arr), size=size)
            return out

    def at_position(p, d):
        tol = path.tol(d)
        lib = obs["lib"].get(d)
        return (lib is not None and ref.close(p, lib, tol)) and any(ref.close(p, q, tol) for q in path.admissible(d))

    # "Every vertex created for depth data sits at the position of its depth"
    for i in range(n):
        d = depth[i]
        if isinstance(d, float) and not at_position(V[i], d):
            fail("vertex-at-position-of-its-depth", "depth-vertex", vertex=i, depth=d, at=V[i], computed=obs["lib"].get(d),
                 reference=path.admissible(d))
    # "every interval cell joins the positions of its from and to depths"
    for j in range(m):
        a, b = C[j]
        if not (0 <= a < n and 0 <= b < n):
            fail("cell-joins-from-and-to-positions", "cell-index-outside-vertices", cell=j, indices=C[j], n_vertices=n)
            continue
        if not isinstance(frm[j], float) or not isinstance(to[j], float):
            fail("cell-joins-from-and-to-positions", "cell-without-from-to", cell=j, FROM=frm[j], TO=to[j])
            continue
        for end, idx, d in (("from", a, frm[j]), ("to", b, to[j])):
            if not at_position(V[idx], d):
                fail("cell-joins-from-and-to-positions", f"{end}-end", cell=j, depth=d, at=V[idx], computed=obs["lib"].get(d),
                     reference=path.admissible(d))
    # "each added value stays attached to its depth or interval"
    for ad in adds:
        rec = data.get(ad["name"])
        slack = ad["tol"] * (1 + 1e-9)
        if ad["kind"] == "depth":
            vals = _pad(rec["values"] if rec else None, n)
            if len(vals) > n:
                fail("value-stays-at-its-depth", f"{ad['label']}|values-longer-than-vertices")
                continue
            near = lambda i, d: isinstance(depth[i], float) and abs(depth[i] - d) <= slack  # noqa: E731
            gone = False
            for d, v in zip(ad["where"], ad["values"]):
                holders = [i for i in range(n) if vals[i] == v]
                if not any(near(i, d) for i in holders):
                    gone = True
                    fail("value-stays-at-its-depth", f"{ad['label']}|{'moved' if holders else 'lost'}", value=v, depth=d,
                         found_at_depths=[depth[i] for i in holders], values=vals, DEPTH=depth)
            for i in range(n):
                if gone:
                    break
                if vals[i] is not None and not any(vals[i] == v and near(i, d) for d, v in zip(ad["where"], ad["values"])):
                    fail("value-stays-at-its-depth", f"{ad['label']}|stray", value=vals[i], at_depth=depth[i], values=vals, DEPTH=depth)
        else:
            vals = _pad(rec["values"] if rec else None, m)
            if len(vals) > m:
                fail("value-stays-at-its-interval", f"{ad['label']}|values-longer-than-cells")
                continue

            def near_iv(j, ft):
                return (isinstance(frm[j], float) and isinstance(to[j], float)
                        and math.hypot(frm[j] - ft[0], to[j] - ft[1]) <= slack)

            gone = False
            for ft, v in zip(ad["where"], ad["values"]):
                holders = [j for j in range(m) if vals[j] == v]
                if not any(near_iv(j, ft) for j in holders):
                    gone = True
                    fail("value-stays-at-its-interval", f"{ad['label']}|{'moved' if holders else 'lost'}", value=v, interval=ft,
                         found_at=[[frm[j], to[j]] for j in holders], values=vals, FROM=frm, TO=to)
            for j in range(m):
                if gone:
                    break
                if vals[j] is not None and not any(vals[j] == v and near_iv(j, ft) for ft, v in zip(ad["where"], ad["values"])):
                    fail("value-stays-at-its-interval", f"{ad['label']}|stray", value=vals[j], at=[frm[j], to[j]], values=vals)
    return out


def _canon(obs):
    return core.digest([np.round(np.asarray(obs["vertices"], dtype=float), 9).tolist(), obs["cells"],
                        {k: v["values"] for k, v in obs["data"].items()}])


def _run_data(h, mode):
    Workspace, Drillhole = _lib()
    world.reset("asc")
    path = ref.Path(h["collar"], h["table"])
    viol, states, ntrans, results = [], [], 0, []
    first_seen = set()
    adds = []
    model_depths, model_ivs = [], []  # statement-level bookkeeping for the witness labels only

    def sightings(vl, k, after_kind):
        # a failure is reported where it is FIRST seen in the history (later states inherit it)
        for c, w, d in vl:
            if (c, w) not in first_seen:
                first_seen.add((c, w))
                viol.append((c, f"{w}|first-seen-after:{after_kind}", dict(d, k=k, ops=h["ops"])))

    with poisoned("0"):
        ws = Workspace()
        dh = Drillhole.create(ws, name="hole", collar=list(h["collar"]), surveys=np.asarray(h["table"], dtype=float))
        ntrans += 1
        for k, op in enumerate(h["ops"]):
            label = None
            if op[0] == "reopen":
                ws, dh = _reopen(ws, "r+")
                results.append("reopen")
            else:
                kind = op[0]
                name = f"d{k}"
                tol = op[2] if op[2] is not None else float(dh.default_collocation_distance)
                where = [list(x) if isinstance(x, list) else x for x in op[1]]
                vkind = op[3] if kind == "interval" else "float"
                values = [_tag(k, j, vkind) for j in range(len(where))]
                if kind == "depth":
                    hit = [any(abs(d - e) < tol for e in model_depths) for d in where]
                    cls = "first" if not model_depths else "match" if any(hit) else "no-match"
                    label = f"depth-{'sorted' if where == sorted(where) else 'unsorted'}/{cls}"
                    model_depths += [d for d, x in zip(where, hit) if not x]
                    spec = {"depth": np.asarray(where, dtype=float), "values": np.asarray(values, dtype=float)}
                else:
                    hit = [any(math.hypot(f - a, t - b) < tol for a, b in model_ivs) for f, t in where]
                    cls = "first" if not model_ivs else "match" if any(hit) else "no-match"
                    label = f"interval-{vkind}/{cls}"
                    model_ivs += [ft for ft, x in zip(where, hit) if not x]
                    spec = {"from-to": np.asarray(where, dtype=float), "values": np.asarray(values)}
                    if vkind == "text":
                        spec["type"] = "TEXT"
                try:
                    dh.add_data({name: spec}, collocation_distance=op[2])
                    adds.append({"name": name, "kind": kind, "where": where, "values": values, "tol": tol, "label": label})
                    results.append("added")
                except Exception as err:  # pylint: disable=broad-except
                    results.append(f"raised:{type(err).__name__}")
                    sightings([("value-stays-at-its-depth" if kind == "depth" else "value-stays-at-its-interval",
                                f"{label}|addition-raises:{type(err).__name__}", {"op": op, "error": repr(err)[:300]})], k, "itself")
            ntrans += 1
            if mode == "peek":
                obs = observe_hole(dh)
                states.append(_canon(obs))
                vl = judge_data(path, obs, adds)
                if label is not None:  # failures of the addition just made are tagged as its own
                    own = [(c, w, d) for c, w, d in vl if w.startswith(label + "|")]
                    sightings(own, k, "itself")
                sightings(vl, k, "reopen" if op[0] == "reopen" else f"{op[0]}-addition")
        if mode == "blind":
            obs = observe_hole(dh)
            states.append(_canon(obs))
            sightings(judge_data(path, obs, adds), len(h["ops"]) - 1, "unobserved-history")
        ws2, dh2 = _reopen(ws, "r")
        ntrans += 1
        obs = observe_hole(dh2)
        states.append(_canon(obs))
        sightings(judge_data(path, obs, adds), len(h["ops"]), "final-reopen")
        ws2.close()
    return {"viol": viol, "outcome": core.digest([results, states[-1]]), "states": states, "transitions": ntrans, "unwritten": 0}


def run_data(h):
    """h = {"kind": "data", "collar": c, "table": t, "mode": "peek"|"blind", "ops": [...]}.
    blind = nothing is read between the operations (reading fills caches); a failure found that
    way is named after where the peeking run of the same history first sees it, if it does."""
    r = _run_data(h, h["mode"])
    if h["mode"] == "blind" and r["viol"]:
        peek = {(c, w.rsplit("|first-seen-after:", 1)[0]): w for c, w, _ in _run_data(h, "peek")["viol"]}
        out = []
        for c, w, d in r["viol"]:
            base = w.rsplit("|first-seen-after:", 1)[0]
            out.append((c, peek.get((c, base), f"{base}|only-when-unobserved"), d))
        r["viol"] = out
    return r


def _data_cases(quick: bool, seed: int):
    full, reduced = _alphabet(True), _alphabet(False)
    ta_peek, ta_blind = (COLLARS[1], TA, "peek"), (COLLARS[1], TA, "blind")
    tb_peek, tb_blind = (COLLARS[0], TB, "peek"), (COLLARS[0], TB, "blind")
    if quick:
        plans = [(full, 1, [ta_peek, tb_peek]), (full, 2, [ta_peek, tb_peek]), (reduced, 2, [ta_blind])]
    else:
        plans = [(full, 1, [ta_peek, tb_peek]), (full, 2, [ta_peek, tb_peek, ta_blind, tb_blind]),
                 (reduced, 3, [ta_peek, tb_peek, ta_blind])]
    cases, seen = [], set()
    for alpha, length, holes in plans:
        for ops in itertools.product(alpha, repeat=length):
            if ops[-1][0] == "reopen":  # every history ends with close + re-open anyway
                continue
            if any(a[0] == "reopen" and b[0] == "reopen" for a, b in zip(ops, ops[1:])):
                continue
            for collar, table, mode in holes:
                h = {"kind": "data", "collar": collar, "table": table, "mode": mode, "ops": [list(o) for o in ops]}
                key = core.jdump(h)
                if key not in seen:
                    seen.add(key)
                    cases.append(h)
    if seed:  # order must not matter: permute inside each length class
        r = seed * 101
        cases.sort(key=lambda c: (len(c["ops"]), (int(core.digest(c), 16) + r) % 1009))
    else:
        cases.sort(key=lambda c: len(c["ops"]))
    return cases, {"full": len(full), "reduced": len(reduced)}


# ===========================================================================
def run_case(h):
    return run_path(h) if h["kind"] == "path" else run_data(h)


def replay(history):
    return run_case(history)["viol"]


def run(ctx):
    quick = ctx.quick
    pcases, ntables = _path_cases(quick, ctx.seed)
    dcases, alpha_sizes = _data_cases(quick, ctx.seed)
    cases = pcases + dcases

    # determinism self-test: first and last case of each kind, twice, identical observations
    for probe in (pcases[0], pcases[-1], dcases[0], dcases[-1]):
        a, b = run_case(probe), run_case(probe)
        if core.jdump(a) != core.jdump(b):
            raise core.HarnessError(f"non-deterministic execution of {probe}")

    results = core.pmap(run_case, cases)
    states, transitions, unwritten_nonzero = set(), 0, 0
    per_kind = {"path": 0, "data": 0}
    unwritten_total = 0
    for h, r in zip(cases, results):
        states.update(r["states"])
        transitions += r["transitions"]
        per_kind[h["kind"]] += 1
        unwritten_total += r["unwritten"]
        ctx.outcomes.add(r["outcome"])
        ctx.add_violations(h, r["viol"])
    for h in (pcases[0], pcases[len(pcases) // 2], dcases[0], dcases[len(dcases) // 3], dcases[-1]):
        ctx.sample(h)

    ctx.cover(
        states=len(states),
        transitions=transitions,
        traces_validated_against_impl=len(cases),
        distinct_outcomes=len(ctx.outcomes),
        exhaustive=True,
        survey_tables=ntables,
        path_cases=per_kind["path"],
        data_histories=per_kind["data"],
        unwritten_divide_slots_answered=unwritten_total,
        determinism_replays=4,
        alphabet={
            "path": {"collars": COLLARS, "station_depths": DEPTHS, "azimuth": AZ, "dip": DIP,
                     "rows": "1-3" if quick else "1-4", "environment(unwritten np.divide slots)": list(POISONS),
                     "steps": ["create | create-bare", "collar=", "surveys=", "collar=", "reopen"],
                     "queries": "0, stations, mid+quarter points, float neighbours of 0 and of every station, last+7, last+1000"},
            "data": {"depth_sets": DSETS, "interval_sets": ISETS, "collocation": ["default(1e-2)", 1e-4, 0.5],
                     "value_kinds": ["float (depth, interval)", "text (interval)"], "ops": alpha_sizes,
                     "holes": ["TA first station at 0, 3 stations", "TB first station at 1, data beyond the last station"],
                     "observation": ["peek: judged live after every operation", "blind: judged only at the end", "always: after final close + re-open"]},
        },
        bound=("PATH: every table of 1-3 rows (thorough: 1-4) with non-decreasing depths from {0,5,10,20} incl. repeats; directions: 16 for one row, "
               + ("16x4 + equal pairs for two rows, 4^3 for three rows" if quick else "16x16 for two rows, 6^3 for three rows, 3^4 for four rows")
               + "; DATA: every history of length <= 2 over the full alphabet"
               + ("" if quick else " and of length 3 over the reduced alphabet") + ", each followed by close + re-open"),
    )
    ctx.assumptions += [
        "survey angles: azimuth clockwise from north, dip negative downwards (the API's default table (0,0,-90) is a vertical hole); lattice numbers are exact in float32 (the stored survey precision)",
        "section between the collar and a first station deeper than 0: judged against the first station's direction (the only direction the table supplies), under its own clause name",
        "'continues the last direction' is accepted under any of three readings (final station, mean of the last leg, last leg of non-zero length travelled)",
        "computed positions are compared with relative tolerance 1e-9; depths of one addition are pairwise farther apart than its collocation distance",
        "a value is 'at its depth' when the vertex's DEPTH (interval: FROM/TO) is within the collocation distance the value was added with",
        "unwritten slots of np.divide(where=) are answered by the harness from {0, 1e300, inf, nan} (numpy documents them as uninitialised); DATA histories use the answer 0",
        "negative query depths, NaN angles, text values on depth data and decreasing survey depths are outside the enumeration",
    ]
