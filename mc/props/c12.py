"""C12 - a copy equals its source and never disturbs it.

Enumerated (DESIGN.md section 4, C12), reflectively:
  sources   the fixture entity of every concrete class of geoh5py.objects / groups / data
            (mc.fixtures, 65 classes), enriched (mc.c12_lib.enrich_*) with a property group whose
            member order differs from the identifier order, text / referenced / OBJECT-associated
            children, and for groups a sub-tree of depth 2; drillhole groups hold two holes with data;
  targets   same parent | another group (data: another object) of the same workspace | the root of
            another workspace | a group of another workspace;
  options   copy_children x clear_cache (in-memory and disk files) x mask (none | all true | partial)
            x source as created / re-loaded from its file;
  edits     of the copy, its entity type, its first property group and the first data / object / group /
            hole of its sub-tree: every settable attribute with the values of mc.domains, and in-place
            edits of every array / dict / list / value map / colour map returned by a getter.
Oracle: mc/c12_lib.py (clauses copy-yields-entity, copy-equals-source, source-unchanged,
source-file-unchanged, copy-independent).
"""

from __future__ import annotations

import os

from .. import c12_lib as lib
from .. import core, fixtures

DEFAULT = {"cc": True, "clear": False, "mask": "none", "pre": False, "disk": False, "enrich": "full"}
# group classes that differ from ContainerGroup by their type identifier only: same code path
PLAIN_GROUPS = (
    "AirborneGeophysics AirborneTheme EarthModelsTheme GeochemistryMineralogyDataSet GeochemistryMineralogyTheme GeophysicsTheme "
    "GiftoolsGroup GroundTheme IntegratorGroup IntegratorProject NoTypeGroup ObservationPointsTheme QueryGroup RockPropertiesTheme SamplesTheme"
).split()
NO_MASK = ("Drillhole", "GeoImage", "Label", "NoTypeObject", "DrapeModel", "RootGroup", "DrillholeGroup", "IntegratorDrillholeGroup",
           "MultiTextData", "CommentsData", "FilenameData", "VisualParameters", "BlobData", "UnknownData")


def run_case(history):
    return lib.run_case(history)


def run_sequence(history):
    return lib.run_sequence(history)


def run_singles(item):
    return lib.run_singles(item)


def describe(history):
    return lib.describe(history)


def replay(history):
    return [tuple(v) for v in lib.replay(history)]


def targets_of(cls):
    if cls == "RootGroup":
        return ["other", "othergroup"]  # the root has no parent of its own and cannot be copied below itself
    if fixtures.kind_of(cls) == "data":
        return ["same", "group", "other"]
    return ["same", "group", "other", "othergroup"]


def variations(cls, target, quick):
    """Option combinations of one (class, target), simplest first."""
    data = fixtures.kind_of(cls) == "data"
    masks = [("none", "full")]
    if cls not in NO_MASK:
        masks += [("all", "full"), ("part", "full")]
        if not data:
            masks += [("all", "notext"), ("part", "notext")]
    out = [dict(DEFAULT)]
    if quick:
        if target in ("group", "othergroup") or cls in PLAIN_GROUPS:
            if not data and target == "same":
                out.append(dict(DEFAULT, cc=False))
            return out
        one_at_a_time = [{"pre": True}]
        if not data:
            one_at_a_time.insert(0, {"cc": False})
        if target == "same":
            one_at_a_time.append({"clear": True, "disk": True})
            one_at_a_time += [{"mask": m, "enrich": enr} for m, enr in masks[1:]]
        return out + [dict(DEFAULT, **v) for v in one_at_a_time]
    out = []
    for pre in (False, True):
        for clear, disk in ((False, False), (True, True)):
            for cc in ((True,) if data else (True, False)):
                for m, enr in masks:
                    if pre and enr == "notext":
                        continue  # the enrichment without text children is a variant of the as-created source only
                    out.append(dict(DEFAULT, cc=cc, clear=clear, disk=disk, mask=m, enrich=enr, pre=pre))
    # clear_cache on in-memory files (the library then clears nothing): one option changed at a time
    out.append(dict(DEFAULT, clear=True))
    out.append(dict(DEFAULT, clear=True, pre=True))
    if not data:
        out.append(dict(DEFAULT, clear=True, cc=False))
    out.sort(key=lambda o: sum(o[k] != DEFAULT[k] for k in DEFAULT))
    return out


def run(ctx):  # noqa: C901  pylint: disable=too-many-locals,too-many-branches,too-many-statements
    n_classes = fixtures.check_complete()
    classes = [c for c in fixtures.FACTORIES if c not in fixtures.EXTRA]
    only = os.environ.get("VERIF_C12_ONLY")  # development aid (evidence then says exhaustive=False)
    if only:
        classes = [c for c in classes if c in only.split(",")]

    # ---- 1. copies without edits
    base = []
    for cls in classes:
        for target in targets_of(cls):
            for opt in variations(cls, target, ctx.quick):
                base.append(dict(opt, property="C12", cls=cls, target=target, edits=[]))
    base.sort(key=lambda h: sum(h[k] != DEFAULT[k] for k in DEFAULT))  # simplest first
    if ctx.seed:
        k = ctx.seed % len(base)
        base = base[k:] + base[:k]
    results = core.pmap(run_case, base, chunksize=2)

    # ---- 2. edits of the copy
    plans = []
    for cls in classes:
        for target in ("same", "other"):
            if target in targets_of(cls):
                plans.append(dict(DEFAULT, property="C12", cls=cls, target=target))
    described = core.pmap(describe, plans, chunksize=1)
    sequences, singles = [], []
    n_edits_listed = 0
    for d in described:
        h, edits = d["history"], d["edits"]
        if h["cls"] in PLAIN_GROUPS:
            edits = [e for e in edits if e[1] in ("", "type")]  # the sub-tree is that of ContainerGroup
        n_edits_listed += len(edits)
        first = [e for e in edits if e[3] == 0]
        if not edits:
            continue
        sequences.append(dict(h, edits=first if ctx.quick else edits))
        if not ctx.quick:
            sequences.append(dict(h, edits=first, pre=True))
            sequences.append(dict(h, edits=first, clear=True, disk=True))
            for i in range(0, len(edits), 24):
                singles.append({"base": h, "edits": edits[i:i + 24]})
    seq_results = core.pmap(run_sequence, sequences, chunksize=1)
    single_results = core.pmap(run_singles, singles, chunksize=1)

    # ---- bookkeeping
    states, n_exec, n_judged = set(), 0, 0
    statuses = {"applied": 0, "refused": 0}
    refused = {}
    outcomes_by_kind = {}
    all_results = [(h, r) for h, r in zip(base, results)] + [(h, r) for h, r in zip(sequences, seq_results)]
    for item, rs in zip(singles, single_results):
        all_results += [(dict(item["base"], edits=[e]), r) for e, r in zip(item["edits"], rs)]
    pending = []
    for hist, res in all_results:
        pending += [(len(h.get("edits") or []), order, h, c, w, d) for order, (h, c, w, d) in enumerate(res["viol"], len(pending))]
        states.add(res["state"])
        n_exec += res["n_exec"]
        ctx.outcomes.add(tuple(res["outcome"]))
        kind = res["outcome"][6]
        outcomes_by_kind[kind] = outcomes_by_kind.get(kind, 0) + 1
        if kind == "copied":
            n_judged += res["n_exec"]
        for s in res["statuses"]:
            statuses[s] = statuses.get(s, 0) + 1
        for k, v in res["errors"].items():
            refused.setdefault(f"{hist['cls']}:{k}", v)

    for _n, _o, h, c, w, d in sorted(pending, key=lambda t: (t[0], t[1])):  # shortest history first
        ctx.violation(c, w, h, d)

    # ---- self tests: determinism, forked == plain
    probe = [h for h in base if h["cls"] in ("Curve", "FloatData", "DrillholeGroup") and h["target"] == "other"][:3]
    ndet = 0
    for h in probe:
        a, b = lib.run_case(h), lib.run_case(h)
        if core.jdump(a) != core.jdump(b):
            raise core.HarnessError(f"non-deterministic execution of {h}")
        ndet += 1
    nfork = 0
    for d in described:
        if d["history"]["cls"] in ("Curve", "ReferencedData") and d["edits"]:
            picked = d["edits"][:2] + d["edits"][-2:]
            forked = lib.run_singles({"base": d["history"], "edits": picked})
            for e, f in zip(picked, forked):
                plain = lib.run_case_isolated(dict(d["history"], edits=[e]))
                if core.jdump(plain) != core.jdump(f):
                    raise core.HarnessError(f"forked and plain execution disagree on {d['history']} {e}")
                nfork += 1

    step = max(1, len(all_results) // 6)
    for hist, _ in all_results[::step][:6]:
        ctx.sample(hist)
    ctx.cover(
        states=len(states),
        transitions=n_exec,
        traces_validated_against_impl=n_judged,
        concrete_classes=n_classes,
        classes_enumerated=len(classes),
        copies_without_edits=len(base),
        edit_sequences=len(sequences),
        single_edit_histories=sum(len(i["edits"]) for i in singles),
        edits_listed=n_edits_listed,
        edits_applied=statuses.get("applied", 0),
        edits_refused=statuses.get("refused", 0),
        outcomes_by_kind=outcomes_by_kind,
        refused_edits_sample=dict(sorted(refused.items())[:40]),
        distinct_outcomes=len(ctx.outcomes),
        determinism_replays=ndet,
        fork_vs_plain_crosscheck=nfork,
        exhaustive=not only,
        alphabet="copy(class, target, copy_children, clear_cache, mask, storage, as-created | re-loaded); then set(path, attribute, value) | "
                 "poke(path, attribute) on the copy; then close + re-open of both files",
        bound=(
            "every concrete class x its targets x "
            + ("{default options; one option changed at a time for targets same / other (plain group classes: default and copy_children=False only)}"
               if ctx.quick else "{copy_children} x {clear_cache off, on with disk files} x {mask none, all, part; as-created sources also without text children} x {as created, re-loaded}, "
               "plus clear_cache on in-memory files with default / re-loaded / copy_children=False")
            + "; edits: targets same / other, default options, "
            + ("one sequence of all in-place edits and the first domain value of every settable attribute" if ctx.quick
               else "every edit alone (all domain values) plus sequences as created / re-loaded / clear_cache on disk")
        ),
    )
    ctx.assumptions += [
        "fixtures: mc/fixtures.py (one populated entity per concrete class), enrichment and sub-tree: mc/c12_lib.enrich_object / enrich_group",
        "'equal' is read modulo identifiers and parent: uids inside metadata / property groups / link attributes are compared through the structural "
        "label of the entity they name (or its class); the uid of an entity type is not compared (property C06)",
        "children are matched by (class, name); their order is not compared; members of a property group are compared in order",
        "copy_children=False: children, property groups and what is stored in children (image, visual parameters, the list of EM component groups, "
        "extent of a group) are not expected on the copy",
        "partial mask: expected copy computed by a model for Points / Curve / Surface classes (sub-sampled and re-indexed), grid classes and data copied "
        "alone (blanked with the class's no-data value); for linked surveys, groups and drillholes only the attributes a mask cannot touch are compared",
        "bookkeeping children of linked surveys ('A-B Cell ID', 'Transmitter ID') are compared through the meaning of their values "
        "(value -> name), not by raw index or value map: the copy renumbers them by design (property C20)",
        "the target parent legitimately gains a child: its children list, pointers to children (visual_parameters, image ...) and the extent of "
        "groups are not part of 'source unchanged'",
        "entity types are shared inside one workspace by design: the type of a copy is edited only when the copy lives in another workspace",
        "a refused edit (the setter raises) is not judged; a history whose edits make the copy unwritable (close / re-open raises) is not judged",
        "a one-element text array and the same single string are the same value (reader's choice, property C01)",
        "RootGroup: copied to another workspace only; UnknownData: cannot be re-loaded (fixtures.UNREADABLE), so only the as-created source is copied",
        "drillhole groups: the file 'before the copy' is the file left by an identical closed twin scene (concatenated tables reach the file on close)",
        "re-opened observations use a private copy of the bytes opened read-write (some classes write on load: not this property's concern)",
    ]
