"""C11 - closing always leaves a complete file and a released handle.

Histories of the tree alphabet; for every history (= every cut point between two
operations) the workspace is left in every way the statement lists: with-block ending
normally, explicit close, an exception raised inside the block, the library's own refusal
escaping the block, fetch_active_workspace re-opening in another / the same mode.  Oracle:
file valid and equal to the reference model of the completed operations; h5py open-object
count back to baseline; after close every file-needing getter of previously obtained
entities raises Geoh5FileClosedError or serves exactly what is in the file; re-opening (same
object and a second Workspace) gives the same content.  DESIGN.md §4 C11.
"""

from __future__ import annotations

from .. import treecheck
from ..treeprop import TreeProp

EXITS = ("normal", "raise", "refusal", "fetch_r", "fetch_r+", "fetch_r+_from_r", "fetch_r_from_closed", "fetch_r+_from_r_raise",
         "fetch_r_from_closed_raise", "close")


def cfg(exit_mode, order="asc", policy="hold"):
    return {"uid_order": order, "policy": policy, "exit": exit_mode}


QUICK = []
for _x in EXITS:
    QUICK += [("S2r", cfg(_x), 1, "EDIT"), ("S1", cfg(_x, "desc"), 1, "FULL")]
QUICK += [("S1", cfg("save_as"), 1, "FULL"), ("S2r", cfg("save_as"), 2, "DELCORE"), ("S2r", cfg("save_as", "desc"), 1, "FULL"),
          ("S1r", cfg("raise"), 2, "DELCORE"), ("S0", cfg("refusal"), 3, "FULL"), ("S2", cfg("fetch_r", policy="drop"), 1, "FULL")]
THOROUGH = []
for _x in EXITS:
    THOROUGH += [("S2r", cfg(_x), 2, "EDIT"), ("S1", cfg(_x, "desc"), 2, "FULL"), ("S1r", cfg(_x, "asc", "drop"), 1, "FULL"),
                 ("S4r", cfg(_x, "desc", "hold"), 1, "DELCORE")]
THOROUGH += [("S1", cfg("save_as"), 2, "FULL"), ("S2r", cfg("save_as"), 2, "DEL"), ("S4r", cfg("save_as", "desc"), 2, "DELCORE"),
             ("S0", cfg("raise"), 3, "FULL"), ("S0", cfg("refusal", "desc"), 3, "FULL"), ("S2", cfg("fetch_r+_from_r_raise"), 2, "STRUCT"),
             ("S4", cfg("normal"), 2, "DELCORE")]

P = TreeProp(
    "C11",
    treecheck.clauses_c11,
    treecheck.C11Protocol,
    QUICK,
    THOROUGH,
    assumptions=[
        "crash points are between two operations (Python exception leaving the with-block); process kills / power loss are out of scope by the property text",
        "a getter served from memory after close is accepted iff it equals what a fresh opening of the file serves",
    ],
)
run, replay = P.run, P.replay
