"""Level-synchronous breadth-first explicit-state explorer over *histories*.

A state is the history that reaches it (live objects cannot be copied).  `run_one`
executes one history on the real implementation (in a worker) and returns

    {"key": canonical state key, "viol": [(clause, witness, detail)...],
     "succ": [op, ...] enabled next operations (from the lock-step model),
     "outcome": small hashable summary of what was observed, "model_key": ...}

Successors of a history are explored only if its canonical key is new (dedup) and the
history did not violate anything (a broken state is reported, not built upon).
"""

from __future__ import annotations

import random
import time

from . import core


def explore(
    ctx,
    run_one,
    seeds,
    depth,
    cost=None,
    budget=None,
    merge=True,
    label="",
    time_cap=None,
    succ_filter=None,
):
    """seeds: list of histories (dict with 'ops'); depth: number of ops appended to a seed.

    cost(ops_suffix) -> dict of deviation counts; budget: dict of max per deviation.
    Returns stats dict. Violations are recorded on ctx.
    """
    rng = random.Random(ctx.seed)
    seen = set()
    canon_keys = set()
    viol_sigs = set()
    model_keys = set()
    stats = {"states": 0, "transitions": 0, "levels": [], "capped": False, "max_depth_completed": -1}
    frontier = [dict(h, _d=0) for h in seeds]
    t0 = time.time()
    for level in range(depth + 1):
        if not frontier:
            stats["max_depth_completed"] = level - 1 if level else 0
            break
        if time_cap is not None and time.time() - t0 > time_cap:
            stats["capped"] = True
            break
        rng.shuffle(frontier)  # VERIF_SEED permutes which history represents a state
        clean = [{k: v for k, v in h.items() if not k.startswith("_")} for h in frontier]
        results = core.pmap(run_one, clean)
        nxt = []
        new_states = 0
        for h, r in sorted(zip(clean, results), key=lambda hr: core.jdump(hr[0]["ops"])):
            stats["transitions"] += 1
            ctx.outcomes.add(r.get("outcome"))
            if r.get("model_key") is not None:
                model_keys.add(r["model_key"])
            canon_keys.add(r["key"])
            if r["viol"]:
                viol_sigs.update((c, w) for c, w, _ in r["viol"])
                ctx.add_violations(h, r["viol"])
            key = r["key"] if merge else core.digest(h)
            if key in seen:
                continue
            seen.add(key)
            new_states += 1
            if stats["states"] + new_states <= 3 or (new_states % 997 == 0):
                ctx.sample({"history": h, "outcome": r.get("outcome"), "key": key})
            if level == depth or (r["viol"] and not ctx.all_known(r["viol"])):
                continue
            for op in r["succ"]:
                ops2 = h["ops"] + [op]
                if budget:
                    c = cost(ops2[len(h["ops"]) - level :]) if cost else {}
                    if any(c.get(k, 0) > v for k, v in budget.items()):
                        continue
                if succ_filter is not None and not succ_filter(h, op, level):
                    continue
                nxt.append(dict(h, ops=ops2))
        stats["states"] += new_states
        stats["levels"].append({"depth": level, "executions": len(clean), "new_states": new_states})
        stats["max_depth_completed"] = level
        frontier = nxt
    stats["model_states"] = len(model_keys)
    stats["_keys"] = canon_keys
    stats["_viol_sigs"] = viol_sigs
    return stats


def determinism_check(run_one, histories):
    """Replay some histories twice (sequentially, same process) and require identical
    observations.  A divergence is a harness error, never a violation."""
    from . import world

    world.install()
    n = 0
    for h in histories:
        a = run_one(h)
        b = run_one(h)
        if core.jdump(a) != core.jdump(b):
            raise core.HarnessError(f"non-deterministic replay of {h!r}:\n{core.jdump(a)[:800]}\n{core.jdump(b)[:800]}")
        n += 1
    return n
