"""Corpus of C19: closed geoh5 files produced by the library itself.

Every scene is a plain function ws -> None run on a fresh in-memory workspace after
world.reset(order); entity / type / property-group names are unique inside a scene so
that faults can be addressed symbolically (by name) and not by uid.
"""

from __future__ import annotations

import io

import numpy as np

from . import world


def _cmap():
    from geoh5py.data.color_map import ColorMap

    return ColorMap(values=np.array([[1.0, 0, 0, 0, 255], [2.0, 10, 20, 30, 255]]), name="cm-file")


def s_basic(ws):
    """groups (nested, one empty), Points with data of 5 primitive kinds, colour map,
    value map, property group, metadata on a group and on an object."""
    from geoh5py.groups import ContainerGroup
    from geoh5py.objects import Points

    g = ContainerGroup.create(ws, name="G")
    g.metadata = {"a": 1}
    ContainerGroup.create(ws, name="Empty", parent=g)
    p = Points.create(ws, name="P", parent=g, vertices=np.arange(9.0).reshape(3, 3))
    p.metadata = {"k": {"x": 1}}
    d1 = p.add_data({"f": {"values": np.array([1.0, 2.0, np.nan])}})
    d1.entity_type.color_map = _cmap()
    p.add_data({"r": {"type": "referenced", "values": np.array([1, 2, 1]), "value_map": {1: "a", 2: "b"}}})
    p.add_data({"t": {"association": "OBJECT", "values": "hello"}})
    p.add_data({"b": {"values": np.array([True, False, True])}})
    d5 = p.add_data({"i": {"values": np.array([1, 2, 3], dtype=np.int32)}})
    p.add_data_to_group([d1, d5], "PG")
    q = Points.create(ws, name="Q", vertices=np.arange(6.0).reshape(2, 3) + 50)
    q.add_data({"qf": {"values": np.array([5.0, 6.0])}})
    Points.create(ws, name="Bare", parent=g, vertices=np.arange(3.0).reshape(1, 3))


def s_tree(ws):
    """two sibling groups, objects sharing a type, two data sharing a data type, two
    property groups on one object, an object directly under the root, data on a group."""
    from geoh5py.groups import ContainerGroup
    from geoh5py.objects import Curve, Points

    g1 = ContainerGroup.create(ws, name="G1")
    g2 = ContainerGroup.create(ws, name="G2")
    g3 = ContainerGroup.create(ws, name="G3", parent=g1)
    p1 = Points.create(ws, name="P1", parent=g3, vertices=np.arange(9.0).reshape(3, 3))
    p2 = Points.create(ws, name="P2", parent=g2, vertices=np.arange(9.0).reshape(3, 3) + 1)
    a = p1.add_data({"a": {"values": np.array([1.0, 2.0, 3.0])}})
    b = p1.add_data({"b": {"values": np.array([4.0, 5.0, 6.0]), "entity_type": a.entity_type}})
    c = p1.add_data({"c": {"values": np.array([7.0, 8.0, 9.0])}})
    p1.add_data_to_group([a, b], "PG1")
    p1.add_data_to_group([c], "PG2")
    p2.add_data({"d": {"values": np.array([1, 2, 3], dtype=np.int32)}})
    cu = Curve.create(ws, name="C", vertices=np.arange(12.0).reshape(4, 3), parts=np.array([0, 0, 1, 1]))
    cu.add_data({"cc": {"association": "CELL", "values": np.array([0.5, 1.5])}})
    cu.add_data({"cv": {"values": np.array([0.5, 1.5, 2.5, 3.5])}})
    g2.add_comment("note on a group", "me")


def s_classes(ws):
    """objects of several classes and the remaining primitive kinds."""
    from geoh5py.groups import ContainerGroup
    from geoh5py.objects import BlockModel, Drillhole, Grid2D, Octree, Surface

    g = ContainerGroup.create(ws, name="Cls")
    s = Surface.create(
        ws, name="Surf", parent=g, vertices=np.array([[0.0, 0, 0], [1, 0, 0], [0, 1, 0], [1, 1, 1]]), cells=np.array([[0, 1, 2], [1, 2, 3]])
    )
    s.add_data({"sc": {"association": "CELL", "values": np.array([1.0, 2.0])}})
    gr = Grid2D.create(ws, name="Grid", parent=g, origin=[1.0, 2.0, 3.0], u_cell_size=2.0, v_cell_size=3.0, u_count=2, v_count=2, rotation=30.0, dip=10.0)
    gr.add_data({"gc": {"association": "CELL", "values": np.array([1.0, 2.0, 3.0, 4.0])}})
    bm = BlockModel.create(
        ws,
        name="BM",
        parent=g,
        origin=[0.0, 0.0, 0.0],
        u_cell_delimiters=np.array([0.0, 1.0, 2.0]),
        v_cell_delimiters=np.array([0.0, 1.0]),
        z_cell_delimiters=np.array([0.0, -1.0, -2.0]),
        rotation=15.0,
    )
    bm.add_data({"bmc": {"association": "CELL", "values": np.array([1, 2, 3, 4], dtype=np.int32)}})
    oc = Octree.create(
        ws, name="Oct", origin=[0.0, 0.0, 0.0], u_count=2, v_count=2, w_count=2, u_cell_size=1.0, v_cell_size=1.0, w_cell_size=1.0, rotation=0.0
    )
    oc.add_data({"occ": {"association": "CELL", "values": np.arange(oc.n_cells, dtype=float)}})
    dh = Drillhole.create(
        ws, name="Hole", collar=np.r_[0.0, 10.0, 10.0], surveys=np.c_[np.linspace(0, 20, 3), np.ones(3) * 45.0, np.linspace(-89, -75, 3)]
    )
    dh.add_data({"log": {"depth": np.array([1.0, 5.0, 10.0]), "values": np.array([1.0, 2.0, 3.0])}})
    dh.add_data({"itv": {"from-to": np.array([[0.0, 2.0], [2.0, 4.0]]), "values": np.array([10.0, 20.0])}})


def s_drillholes(ws):
    """concatenated storage: a drillhole group with two holes, depth and interval data,
    text data, a property group."""
    from geoh5py.groups import DrillholeGroup
    from geoh5py.objects import Drillhole, Points

    dg = DrillholeGroup.create(ws, name="DHG")
    surveys = np.c_[np.linspace(0, 20, 3), np.ones(3) * 45.0, np.linspace(-89, -75, 3)]
    w1 = Drillhole.create(ws, name="W1", parent=dg, collar=np.r_[0.0, 10.0, 10.0], surveys=surveys)
    w2 = Drillhole.create(ws, name="W2", parent=dg, collar=np.r_[10.0, 10.0, 10.0], surveys=surveys + 1.0)
    w1.add_data(
        {
            "dlog": {"depth": np.array([1.0, 5.0, 10.0]), "values": np.array([1.0, 2.0, 3.0])},
            "ival": {"from-to": np.array([[0.0, 2.0], [2.0, 4.0]]), "values": np.array([10.0, 20.0])},
            "itxt": {"from-to": np.array([[0.0, 2.0], [2.0, 4.0]]), "values": np.array(["ab", "cd"]), "type": "TEXT"},
        }
    )
    w2.add_data(
        {
            "dlog2": {"depth": np.array([2.0, 6.0]), "values": np.array([7.0, 8.0])},
            "ival2": {"from-to": np.array([[1.0, 3.0], [3.0, 5.0], [5.0, 6.0]]), "values": np.array([1.0, 2.0, 3.0])},
        }
    )
    o = Points.create(ws, name="Side", vertices=np.arange(6.0).reshape(2, 3))
    o.add_data({"sv": {"values": np.array([1.5, 2.5])}})


def s_surveys(ws):
    """linked survey pairs (airborne TEM rx/tx, DC potentials/currents) with metadata."""
    from geoh5py.objects import AirborneTEMReceivers, AirborneTEMTransmitters, CurrentElectrode, PotentialElectrode

    v = np.c_[np.linspace(0, 30, 4), np.zeros(4), np.zeros(4)]
    rx = AirborneTEMReceivers.create(ws, name="rx", vertices=v)
    tx = AirborneTEMTransmitters.create(ws, name="tx", vertices=v + 10.0)
    rx.transmitters = tx
    rx.channels = [1e-3, 2e-3]
    rx.add_data({"ch1": {"values": np.array([1.0, 2.0, 3.0, 4.0])}})
    cur = CurrentElectrode.create(ws, name="cur", vertices=v, parts=np.array([0, 0, 1, 1]))
    cur.add_default_ab_cell_id()
    pot = PotentialElectrode.create(ws, name="pot", vertices=v + 1.0, cells=np.array([[0, 1], [2, 3]], dtype=np.uint32))
    pot.ab_cell_id = np.array([1, 2], dtype=np.int32)
    pot.current_electrodes = cur
    pot.add_data({"dcv": {"association": "CELL", "values": np.array([0.1, 0.2])}})


def s_kinds(ws):
    """remaining primitive kinds and special data: datetime, filename (blob), comments,
    text array, unit / precision on a data type, visual parameters."""
    from geoh5py.objects import Points

    p = Points.create(ws, name="K", vertices=np.arange(6.0).reshape(2, 3))
    p.add_data({"dt": {"type": "DATETIME", "association": "OBJECT", "values": "2024-01-02T03:04:05"}})
    p.add_data({"ta": {"type": "TEXT", "values": np.array(["x", "yy"])}})
    p.add_comment("a comment", "me")
    fl = p.add_data({"fu": {"values": np.array([1.0, 2.0])}})
    fl.entity_type.units = "m"
    p.add_default_visual_parameters()


SCENES = {
    "basic": s_basic,
    "tree": s_tree,
    "classes": s_classes,
    "drillholes": s_drillholes,
    "surveys": s_surveys,
    "kinds": s_kinds,
}


def build(scene: str, order: str = "asc", version: float | None = None) -> bytes:
    """Bytes of the closed file of one scene (deterministic for a given VERIF_SEED)."""
    from geoh5py.workspace import Workspace

    world.reset(order)
    kw = {} if version is None else {"version": version}
    ws = Workspace(**kw)
    SCENES[scene](ws)
    ws.close()
    return ws.h5file.getvalue()


def reopen(b: bytes, mode: str = "r"):
    from geoh5py.workspace import Workspace

    return Workspace(io.BytesIO(b), mode=mode)
