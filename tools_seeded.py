#!/usr/bin/env python3
"""Run the registered checks against every seeded property-breaking change.

    python3 tools_seeded.py [ids...] [--tier quick] [--props C01,C02]

For each /verif/seeded/<id>/ (patch.diff + meta.json): apply the patch to /repo
(`git apply`), run the quick check of the property it breaks (plus any listed in
meta['also']), record whether a VIOLATION line was printed, and ALWAYS restore /repo
(`git checkout -- .`) afterwards.  Results go to seeded/RESULTS.json and stdout.
"""
import json
import os
import subprocess
import sys
import time

HERE = os.path.dirname(os.path.abspath(__file__))
REPO = "/repo"


def sh(cmd, **kw):
    return subprocess.run(cmd, shell=True, capture_output=True, text=True, **kw)


def main():
    args = [a for a in sys.argv[1:] if not a.startswith("--")]
    print("NOTE: --scratch runs against a private copy of /repo" if "--scratch" in sys.argv else "running against /repo itself")
    tier = "quick"
    only_props = None
    for i, a in enumerate(sys.argv):
        if a == "--tier":
            tier = sys.argv[i + 1]
            args = [x for x in args if x != tier]
        if a == "--props":
            only_props = sys.argv[i + 1].split(",")
            args = [x for x in args if x != sys.argv[i + 1]]
    global REPO
    scratch = "--scratch" in sys.argv
    if scratch:
        # while other work is using /repo: run against a private copy (VERIF_REPO)
        REPO = "/tmp/seedrun-repo"
        sh(f"rm -rf {REPO}; cp -r /repo {REPO}; git -C {REPO} checkout -- .")
    sdir = os.path.join(HERE, "seeded")
    ids = args or sorted(d for d in os.listdir(sdir) if os.path.isdir(os.path.join(sdir, d)))
    assert sh(f"git -C {REPO} status --porcelain").stdout.strip() == "", "/repo has uncommitted changes"
    res_path = os.path.join(sdir, "RESULTS.json")
    results = json.load(open(res_path)) if os.path.exists(res_path) else {}
    for sid in ids:
        d = os.path.join(sdir, sid)
        meta = json.load(open(os.path.join(d, "meta.json")))
        props = [meta["property"]] + list(meta.get("also", []))
        if only_props:
            props = [p for p in props if p in only_props] or props[:1]
        r = sh(f"git -C {REPO} apply --whitespace=nowarn {d}/patch.diff")
        if r.returncode != 0:
            print(f"{sid}: PATCH DOES NOT APPLY: {r.stderr.strip()[:200]}")
            results[sid] = {"error": "patch does not apply"}
            continue
        try:
            out = {}
            for p in props:
                t0 = time.time()
                env = dict(os.environ, VERIF_SEED=os.environ.get("VERIF_SEED", "0"))
                if scratch:
                    env["VERIF_REPO"] = REPO
                # evidence/<id>.json must always describe a run on the UNCHANGED tree: keep the
                # committed file aside while the check runs against the seeded change
                ev = os.path.join(HERE, "evidence", p + ".json")
                saved = open(ev, "rb").read() if os.path.exists(ev) else None
                try:
                    c = subprocess.run([os.path.join(HERE, "check"), p, "--tier", tier], capture_output=True, text=True, env=env)
                finally:
                    if saved is not None:
                        open(ev, "wb").write(saved)
                viol = [ln for ln in c.stdout.splitlines() if ln.startswith("VIOLATION")]
                sigs = [ln.strip()[len("signature: "):] for ln in c.stdout.splitlines() if ln.strip().startswith("signature:")]
                out[p] = {"rc": c.returncode, "violations": len(viol), "signatures": sigs[:6], "wall_s": round(time.time() - t0, 1)}
                print(f"{sid}: {p} rc={c.returncode} violations={len(viol)} {sigs[:2]} ({out[p]['wall_s']}s)")
                if c.returncode == 2:
                    print("   HARNESS ERROR:", c.stdout[-400:])
            results[sid] = {"property": meta["property"], "checks": out, "detected": any(v["rc"] == 1 for v in out.values())}
        finally:
            sh(f"git -C {REPO} checkout -- .")
            assert sh(f"git -C {REPO} status --porcelain").stdout.strip() == ""
        json.dump(results, open(res_path, "w"), indent=1, sort_keys=True)
    if scratch:
        sh(f"rm -rf {REPO}")
    det = sum(1 for v in results.values() if v.get("detected"))
    print(f"detected {det} / {len(results)}")


if __name__ == "__main__":
    main()
