#!/usr/bin/env python3
"""Regenerate MANIFEST.json from the table below (keeps it valid at all times)."""
import json, os, sys
HERE = os.path.dirname(os.path.abspath(__file__))
CLAIMED = {
 "C14": ("model_checking",
         "exhaustive enumeration of template forms x member combinations x per-form value lattices x entry points, each driven through the depth-3 protocol construct -> write -> read -> compare -> write -> read on the real library",
         "Every template of templates.py with every accepted combination of optional / enabled / group / groupOptional / dependency members, every value of the form's lattice (extreme numbers, strings that look like other value kinds, entities as uuid / string / Entity, None when disabled), dependency and group-leader pairs in both orders, values supplied in the ui.json, through set_data_value and through the data setter; thorough adds every ordered pair of forms. Data and enabled states after reading must equal those before writing, a second cycle must be idempotent, promote / demote must be inverse, the JSON text must be standard.",
         "NaN excluded (documented); an optional parameter holding None and written disabled is the documented normalisation and not judged; everything the library refuses at construction is not judged.",
         "DESIGN.md §4 C14"),
 "C20": ("model_checking",
         "exhaustive enumeration over reflectively discovered survey pairs x linking direction x edit / copy / re-open histories (prefix-sharing forked execution of the real library)",
         "All eight linkable pairs (six EM receiver / transmitter families, tipper receivers / base stations with one or n stations, DC potential / current electrodes) plus MT alone, linked from either side; every shared parameter edited from either side with every domain value, every copy kind (plain, masked, cross-workspace, copy of a copy) from both sides, interleaved with observed and blind re-opens; clauses: both identifiers on both entities (live, raw JSON, re-opened), edits visible on both and stored, partner getters resolve after re-open, copies come with their partner, copies reference each other and not the originals, pairs are independent.",
         "At most 2 edits and 2 copy generations per history; one geometry per family; discovered pairs are cross-checked against the fixture registry (a pair class without fixture is a harness error).",
         "DESIGN.md §4 C20"),
 "C08": ("model_checking",
         "exhaustive enumeration of a representability-boundary value lattice per stored type x storage path x (create | set | reopen) histories of depth<=2, executed on the real library; live, raw-HDF5 and re-open observers against a pure representable() oracle",
         "Every NumPy numeric dtype with every representability boundary it can hold (32-bit limits and neighbours, 2^63, float32 max, sub-normals, infinities, NaN, the no-data sentinel and its float neighbours), Unicode / byte strings, comments, blobs, metadata and value maps, written at creation and on a stored entity (ordinary node and concatenated drillhole path), with the old state varied (short, with gap, other dtype / length, none): representable values must read back equal live, raw and after re-open with the format's no-data codes; the rest must be refused and leave the stored value as it was.",
         "The exact float sentinel is excluded entry-wise (documented exception); float32 narrowing accepted on the concatenated path; geometry fixed at 2 vertices / 2 depths.",
         "DESIGN.md §4 C08"),
 "C13": ("model_checking",
         "exhaustive enumeration of objects on a small coordinate lattice x every box order type (per-axis bounds from the object's own coordinates, midpoints and outside values), executed on the real library against an independent closed point-in-box reference",
         "Objects: all point clouds of 1-3 lattice points, curve / surface cell patterns incl. unused and coincident vertices and all vertex permutations, 2-D grids over shapes x sizes x rotations x dips, block models, octrees, drillholes, groups, tipper and DC surveys; boxes: every pair lo<=hi per axis from {coordinates, midpoints, min-1, max+1}, 2- and 3-column extents, inverse on/off (full product below a cap, selection-class and order-type representatives above it). mask_by_extent on every box; copy_from_extent (and a second selection on the copy) per distinct selection; clauses are the sentences of the statement.",
         "Membership is exact on the source coordinates (bounds are the coordinates themselves); copy centres matched at 1e-9 relative; order of vertices / cells in a copy and non-selection attributes are C12's business.",
         "DESIGN.md §4 C13"),
 "C03": ("model_checking",
         "reflective exhaustive enumeration (every concrete class x every settable attribute x >=2 domain values) and all ordered attribute pairs, each history executed on the real library with re-open before / between / after; live, re-open and raw-HDF5 observers",
         "Targets: one populated instance of each of the 65 concrete entity classes (discovered reflectively; a class without fixture is a harness error), their types, the project header, concatenated holes / data / property groups, colour and value maps. Histories: assign one attribute (as created, and on the entity re-loaded r+), all ordered pairs of attributes of one entity, with re-open between the two; oracle cascade: later reader can read, reader sees the assigned value, live getter == re-opened getter for every attribute of the entity, raw stored value == assigned.",
         "Coupled attributes (Grid2D dip/vertical, end_of_hole after surveys), views sharing a stored field, derived getters and refused assignments are excluded as listed in the evidence; pairs use the first domain value of each attribute.",
         "DESIGN.md §4 C03"),
 "C17": ("model_checking",
         "exhaustive enumeration of grid shapes x cell sizes x origins x rotations x dips, octree dimensions, drape layouts and all part labellings, plus explicit-state enumeration of all setter/read/re-open/copy sequences (depth<=2/3) per grid class, against reference formulas written from the format documentation",
         "Static: every configuration of the lattice is built on the real library and its centroids / cells / parts are compared with formulas from docs/content/geoh5_format/analyst/objects.rst, live and after a fresh re-open. Cache model checking: every sequence of geometry setters, reads, re-opens and copies up to the stated length must end with centroids equal to the formula on the current attributes (a setter that forgets to invalidate the cache is a state-dependent failure the sequence finds).",
         "1e-9 relative tolerance; block delimiters start at 0; dip sign fixed from the documented vertical case; lattices and depth bounded as printed in the evidence.",
         "DESIGN.md §4 C17"),
 "C18": ("model_checking",
         "exhaustive enumeration of survey tables x query depths x environment answers, and explicit-state enumeration of all data-addition histories (depth<=2/3) on the real Drillhole, against a reference desurvey written from the statement",
         "PATH: every survey table of 1-3 (thorough 4) rows over the depth/azimuth/dip lattice, each driven through create / collar= / surveys= / re-open with all query depths (stations, mid and quarter points, float neighbours, beyond the end); DATA: every history of depth / interval data additions (unsorted, overlapping, collocated within tolerance, text and float) up to the stated length with re-open as an operation; clauses are the sentences of the statement (collar at depth zero, continuity, mean direction per leg, last direction beyond the end, vertex at its depth, cell joins from/to, value stays attached).",
         "Lattice values exact in float32; 1e-9 relative tolerance on computed positions; the section above a first station deeper than 0 is judged against the first station's direction (stated assumption).",
         "DESIGN.md §4 C18"),
 "C15": ("model_checking",
         "exhaustive truth-table enumeration over form switch combinations x value lattice x entry points, plus explicit-state enumeration of all call histories (depth<=2/3) on one validator / parameter / form / pool object",
         "Part A: every combination of the group / dependency / optional / enabled switches (468 configurations) for 14 form kinds against a reference predicate written from the ui.json documentation, through six entry points; Part N: the new-style Parameter / FormParameter / UIJson classes; Part B: all call sequences up to the stated length on the same object - the last verdict must equal the verdict of a fresh object and a refused call must leave data and form unchanged.",
         "Reference predicate = docs/content/uijson_format; any exception counts as refusal; lattice and history depth bounded as printed in the evidence.",
         "DESIGN.md §4 C15"),
 "C19": ("fault_enumeration",
         "exhaustive single-fault enumeration (every attribute / link deletion) over a corpus of library-written files, differential against the intact reading",
         "For every file of the corpus (six scenes x uid orders x modes x format versions in the thorough tier) every single deletion of one HDF5 attribute or link is applied with plain h5py; optional items must still open and leave every entity not described by the item unchanged; mandatory items must raise or drop only the described entities and their descendants.",
         "Single faults only, on the listed corpus; the reference is the library's own reading of the intact file (agreement with the written state is C01's job).",
         "DESIGN.md §4 C19"),
 "C06": ("model_checking",
         "explicit-state BFS over create/copy/remove/re-create histories with caller-supplied identifiers on the real library",
         "All histories over creations (fresh uid, uid of a live entity of the same or another kind, uid of a removed entity), copies within and across workspaces (uid free or taken in the target), removals and re-opens up to the stated depth: no identifier twice among live entities or types (listings, tree, file), a refused reuse leaves live tree and file digests unchanged, lookups return the single owner, same-workspace copies get fresh identifiers for entity, children and property groups, cross-workspace copies keep every identifier that is free in the target, one type per object/group class.",
         "Bounded (depth, caps); reuse of the uid of a removed entity may be refused or honoured.",
         "DESIGN.md §4 C06"),
 "C09": ("model_checking",
         "explicit-state BFS on the real library; per-node digests of the file image before/after the last operation of every history compared with a footprint computed from the reference model",
         "For every reachable state of the tree exploration and every single mutating call applied to it, the set of file nodes whose attributes / datasets / link names / type / property-group block changed must lie inside the footprint the statement allows; for every state an open(r+)+close without mutation must change no digest.",
         "Bounded (depth, caps); digests are semantic (values, names), not byte layout; concatenated storage is covered in C04.",
         "DESIGN.md §4 C09"),
 "C11": ("model_checking",
         "explicit-state BFS over histories x exit modes (crash points between operations) on the real library; h5py open-object counting, closed-file probes",
         "For every history prefix (= crash point) and each of eight ways of leaving the workspace (with-block normal exit, explicit close, exception raised in the block, library refusal escaping the block, fetch_active_workspace in same / other mode, from read-only, from closed): the file is valid and equals the reference model of the completed operations, the h5py open-object count returns to baseline, every file-needing getter of previously obtained entities raises Geoh5FileClosedError or serves exactly what the file holds, and re-opening (same object, second Workspace) restores the same content.",
         "Bounded (depth, caps); crash points are Python exceptions between operations (power loss out of scope by the property text).",
         "DESIGN.md §4 C11"),
 "C01": ("model_checking",
         "explicit-state BFS over operation histories on the real library; differential oracle live-vs-reopen plus lock-step reference model",
         "Every history of the tree alphabet up to the stated depth from several scenes (incl. already re-opened ones), two uid orders, two handle policies, with GC and re-open points as deviation-bounded pseudo-operations: the live snapshot taken immediately before the final close must equal the snapshot of a fresh read-only opening, and must equal a boring reference model (nothing lost, duplicated or resurrected).",
         "Bounded by depth, entity caps and deviation budget printed in the evidence; compared fields are those the statement lists plus metadata; GC only at explicit points and where the library calls it.",
         "DESIGN.md §4 C01"),
 "C05": ("model_checking",
         "explicit-state BFS over builder/removal/follow-up histories on the real library; raw-file, live, re-open and lookup observers",
         "All histories over builders, both removal entry points, the delete-permission flag and follow-up operations up to the stated depth, from scenes with every property-group membership pattern; after each history the removed identifiers must be absent from the file image, child lists, property groups and (once references are dropped and a GC ran) lookups and listings; refusals must change nothing; survivors must equal the reference model.",
         "Bounded (depth, caps); protected descendants not explored; concatenated entities are covered by C04.",
         "DESIGN.md §4 C05"),
 # id: (category, technique, text, note, design_ref)
 "C02": ("model_checking",
         "explicit-state BFS over operation histories on the real library + independent HDF5 structure validator after every close",
         "Every history of the tree alphabet (create/rename/flag/values/metadata/property groups/move/copy incl. cross-workspace/remove through workspace and through parent/re-open/GC) up to the stated depth from four scenes, under two uid orders and two handle policies, is executed on the real library; the bytes after every close are checked by a validator written from the format documentation (never geoh5py's reader).",
         "Bounded by depth and entity caps printed in the evidence; the validator is the trusted base; drillhole-group (concatenated) content is validated by C04.",
         "DESIGN.md §4 C02"),
}
PENDING_REASON = "check not built yet in this session (work in progress; see DESIGN.md §9)"
ALL = [f"C{i:02d}" for i in range(1, 21)]
NA = {}
def main():
    checks = []
    for pid in ALL:
        if pid in CLAIMED:
            cat, tech, text, note, ref = CLAIMED[pid]
            checks.append({
                "property_id": pid,
                "quick_cmd": f"./check {pid} --tier quick",
                "thorough_cmd": f"./check {pid} --tier thorough",
                "evidence_file": f"/verif/evidence/{pid}.json",
                "replay_cmd_template": f"./check {pid} --replay {{path}}",
                "engine": "mc",
                "level_claimed": {"category": cat, "text": text, "design_ref": ref},
                "level_note": note,
                "technique": tech,
            })
    na = [{"property_id": p, "reason": NA.get(p, PENDING_REASON)} for p in ALL if p not in CLAIMED]
    man = {
        "version": 1,
        "setup_cmd": "/venv/bin/python -m compileall -q /verif/mc >/dev/null 2>&1; /verif/check --selftest",
        "hooks": {
            "guard": "GEOH5PY_VERIF",
            "enable": "no instrumentation inside /repo is needed: every seam (uuid4, gc, subprocess, numpy proxy) is patched from the harness at import time; checks import geoh5py straight from /repo's working tree (PYTHONPATH=/repo)",
            "baseline_off_cmd": "cd /repo && /venv/bin/python -m pytest -ra -q -p no:cacheprovider --timeout=900 --continue-on-collection-errors",
            "source_commits": [],
            "add_only": True,
        },
        "engines": [{
            "name": "mc", "path": "/verif/mc",
            "serves_properties": sorted(CLAIMED),
            "kind_free_text": "hand-written explicit-state model checker for Python: level-synchronous BFS over operation histories executed on the real geoh5py (fork-cloned live states), lock-step reference models, independent raw-HDF5 reader, deviation-bounded GC/re-open points",
        }],
        "checks": checks,
        "not_applicable": na,
        "notes": "Genuine defects repaired in /repo are 'fix:' commits; recorded ones are in /verif/known_findings.json. See DESIGN.md.",
    }
    json.dump(man, open(os.path.join(HERE, "MANIFEST.json"), "w"), indent=1)
    print("claimed", len(checks), "not_applicable", len(na))
if __name__ == "__main__":
    main()
