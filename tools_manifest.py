#!/usr/bin/env python3
"""Regenerate MANIFEST.json from the table below (keeps it valid at all times)."""
import json, os, sys
HERE = os.path.dirname(os.path.abspath(__file__))
CLAIMED = {
 "C01": ("model_checking",
         "explicit-state BFS over operation histories on the real library; differential oracle live-vs-reopen plus lock-step reference model",
         "Every history of the tree alphabet up to the stated depth from several scenes (incl. already re-opened ones), two uid orders, two handle policies, with GC and re-open points as deviation-bounded pseudo-operations: the live snapshot taken immediately before the final close must equal the snapshot of a fresh read-only opening, and must equal a boring reference model (nothing lost, duplicated or resurrected).",
         "Bounded by depth, entity caps and deviation budget printed in the evidence; compared fields are those the statement lists plus metadata; GC only at explicit points and where the library calls it.",
         "DESIGN.md §4 C01"),
 "C05": ("model_checking",
         "explicit-state BFS over builder/removal/follow-up histories on the real library; raw-file, live, re-open and lookup observers",
         "All histories over builders, both removal entry points, the delete-permission flag and follow-up operations up to the stated depth, from scenes with every property-group membership pattern; after each history the removed identifiers must be absent from the file image, child lists, property groups and (once references are dropped and a GC ran) lookups and listings; refusals must change nothing; survivors must equal the reference model.",
         "Bounded (depth, caps); protected descendants not explored; concatenated entities are covered by C04.",
         "DESIGN.md §4 C05"),
 # id: (category, technique, text, note, design_ref)
 "C02": ("model_checking",
         "explicit-state BFS over operation histories on the real library + independent HDF5 structure validator after every close",
         "Every history of the tree alphabet (create/rename/flag/values/metadata/property groups/move/copy incl. cross-workspace/remove through workspace and through parent/re-open/GC) up to the stated depth from four scenes, under two uid orders and two handle policies, is executed on the real library; the bytes after every close are checked by a validator written from the format documentation (never geoh5py's reader).",
         "Bounded by depth and entity caps printed in the evidence; the validator is the trusted base; drillhole-group (concatenated) content is validated by C04.",
         "DESIGN.md §4 C02"),
}
PENDING_REASON = "check not built yet in this session (work in progress; see DESIGN.md §9)"
ALL = [f"C{i:02d}" for i in range(1, 21)]
NA = {}
def main():
    checks = []
    for pid in ALL:
        if pid in CLAIMED:
            cat, tech, text, note, ref = CLAIMED[pid]
            checks.append({
                "property_id": pid,
                "quick_cmd": f"./check {pid} --tier quick",
                "thorough_cmd": f"./check {pid} --tier thorough",
                "evidence_file": f"/verif/evidence/{pid}.json",
                "replay_cmd_template": f"./check {pid} --replay {{path}}",
                "engine": "mc",
                "level_claimed": {"category": cat, "text": text, "design_ref": ref},
                "level_note": note,
                "technique": tech,
            })
    na = [{"property_id": p, "reason": NA.get(p, PENDING_REASON)} for p in ALL if p not in CLAIMED]
    man = {
        "version": 1,
        "setup_cmd": "/venv/bin/python -m compileall -q /verif/mc >/dev/null 2>&1; /verif/check --selftest",
        "hooks": {
            "guard": "GEOH5PY_VERIF",
            "enable": "no instrumentation inside /repo is needed: every seam (uuid4, gc, subprocess, numpy proxy) is patched from the harness at import time; checks import geoh5py straight from /repo's working tree (PYTHONPATH=/repo)",
            "baseline_off_cmd": "cd /repo && /venv/bin/python -m pytest -ra -q -p no:cacheprovider --timeout=900 --continue-on-collection-errors",
            "source_commits": [],
            "add_only": True,
        },
        "engines": [{
            "name": "mc", "path": "/verif/mc",
            "serves_properties": sorted(CLAIMED),
            "kind_free_text": "hand-written explicit-state model checker for Python: level-synchronous BFS over operation histories executed on the real geoh5py (fork-cloned live states), lock-step reference models, independent raw-HDF5 reader, deviation-bounded GC/re-open points",
        }],
        "checks": checks,
        "not_applicable": na,
        "notes": "Genuine defects repaired in /repo are 'fix:' commits; recorded ones are in /verif/known_findings.json. See DESIGN.md.",
    }
    json.dump(man, open(os.path.join(HERE, "MANIFEST.json"), "w"), indent=1)
    print("claimed", len(checks), "not_applicable", len(na))
if __name__ == "__main__":
    main()
