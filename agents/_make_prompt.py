import json,sys
pid=sys.argv[1]
extra=sys.argv[2] if len(sys.argv)>2 else ""
props={json.loads(l)['id']:json.loads(l) for l in open('/verif/properties.jsonl')}
p=props[pid]
print(f"""You are building ONE property check inside an existing model-checking framework for the Python library geoh5py (source in /repo, read-only for you). Work only in /verif.

Property {pid}: {p['title']}
Statement: {p['statement']}
Quantifier: {p['quantifier']['text']}
Why tests cannot settle it: {p['why_tests_cant']}
Anchors (files / mechanisms in /repo): {json.dumps(p['anchors'])}

What to do
1. Read /verif/mc/API.md completely (module contract, ctx API, rules). Read the section "### {pid}" of /verif/DESIGN.md (planned alphabet / lattice, bound, oracle, canonical state, planned mutants) and §2.5, §5 of it. Look at /verif/mc/core.py and, as a worked example, /verif/mc/props/c01.py + /verif/mc/treeprop.py + /verif/mc/treecheck.py.
2. Read the anchored geoh5py code carefully (every branch: your enumeration must reach each).
3. Write /verif/mc/props/{pid.lower()}.py (helpers, if any, as /verif/mc/{pid.lower()}_*.py) implementing the design: exhaustive bounded enumeration executed on the real library, oracle clauses that are literal readings of the statement, `run(ctx)` + `replay(history)`, evidence numbers via ctx.cover. quick tier <= ~60 s on 16 cores, thorough <= ~15 min.
4. Run it (`cd /verif && VERIF_NPROC=5 ./check {pid} --tier quick`, later thorough; other agents share this machine, so keep NPROC at 5 while developing). Triage every violation on the unchanged tree as API.md rule 3 says: fix false alarms in the check; for genuine defects of geoh5py write a standalone reproduction, a proposed minimal fix (diff text, do not apply to /repo) and a known_findings.d/{pid}.json entry.
5. Demonstrate detection: 3-5 realistic property-breaking mutations on a scratch copy (API.md rule 4; `cp -r /repo /tmp/{pid.lower()}-repo`, `VERIF_REPO=/tmp/{pid.lower()}-repo ./check {pid}`), then remove the copy. If a mutation is missed, strengthen the check.
6. Make sure `./check {pid} --tier quick` exits 0 (only KNOWN-FINDING lines allowed) for VERIF_SEED=0,1,2 and that /verif/evidence/{pid}.json validates: `python3-vt -c "import json,jsonschema; jsonschema.validate(json.load(open('/verif/evidence/{pid}.json')), json.load(open('/root/.vp/EVIDENCE.schema.json')))"`.
{extra}
Constraints: no network; no new packages; never edit /repo or the shared framework files; no git commands; nothing persistent under /tmp (remove scratch copies). Do not weaken an oracle to make a genuine defect quiet. Prefer finishing a sound, well-bounded check over an ambitious unfinished one, but do cover the full design if you can.

Final report (plain text, concise): files written; alphabet / lattice, bounds, oracle clauses; measured states / transitions / wall time for both tiers; every genuine defect found (reproduction snippet, proposed fix diff, signature); the mutations you tried and which clause caught each; anything you need changed in shared files; known limits.""")
