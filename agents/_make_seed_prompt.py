import json,sys
pid=sys.argv[1]; wt=sys.argv[2]; n=sys.argv[3] if len(sys.argv)>3 else "3"
props={json.loads(l)['id']:json.loads(l) for l in open('/verif/properties.jsonl')}
p=props[pid]
print(f"""You are helping to test a verification effort for the Python library geoh5py (MiraGeoscience/geoh5py: object model and HDF5 reader/writer for the geoh5 file format). You get your own scratch git worktree of the library at {wt} (python package in {wt}/geoh5py, unit tests in {wt}/tests). Work ONLY inside {wt}; do not look at or touch /repo or /verif.

A semantic property the library is supposed to satisfy:

  {p['title']}
  {p['statement']}
  (Quantified: {p['quantifier']['text']})

Your job: produce {n} DIFFERENT, realistic, subtle code changes (each an independent small patch against the clean worktree) that BREAK this property while the library still imports and the existing unit-test suite still passes completely. Think of the mistakes a maintainer could plausibly make while refactoring or "optimising": an off-by-one in an index shift, a cache that is not invalidated, a comparison flipped on a boundary, a persistence call issued before the new value is stored or skipped on one branch, a shallow copy, a clean-up skipped for one entity kind, a wrong default. Prefer changes that need something specific to manifest - a particular multi-step sequence of operations, an unusual but valid input, a re-open at a particular point, garbage collection timing, two call sites that each look fine alone - rather than ones any ordinary use would expose at once. Do not simply delete a feature, raise NotImplementedError, or special-case a magic value.

For each change k = 1..{n}:
  1. start from the clean tree (`git -C {wt} checkout -- . && git -C {wt} clean -fdq -e _seeded`), make the change in {wt}/geoh5py;
  2. run the whole existing suite against the worktree and make sure it still passes: `cd {wt} && PYTHONPATH={wt} PYTHONDONTWRITEBYTECODE=1 /venv/bin/python -m pytest -q -p no:cacheprovider --timeout=900 tests` (the venv normally imports the library from elsewhere, so the PYTHONPATH prefix is essential; verify with `PYTHONPATH={wt} /venv/bin/python -c "import geoh5py; print(geoh5py.__file__)"`). If a test fails, the change is not acceptable - pick another;
  3. write a small demonstration `demo.py` (plain script using only geoh5py / numpy / h5py, exit code 1 when the property is violated, 0 otherwise; in-memory `Workspace()` or a file under a `tempfile.TemporaryDirectory()`) that FAILS with your change and PASSES on the clean tree - run it both ways to confirm (`PYTHONPATH={wt} /venv/bin/python demo.py`);
  4. save into {wt}/_seeded/{pid}-k/: `patch.diff` (output of `git -C {wt} diff` for that change only), `demo.py`, and `meta.json` with keys: property (\"{pid}\"), summary (what was changed, one or two sentences), needs (what specific sequence / input / timing is needed for it to manifest), files (list), tests_passed (the pytest summary line you observed), demo_clean (exit code on the clean tree), demo_mutant (exit code with the change).
Finally restore the clean tree (`git -C {wt} checkout -- .`) leaving only the _seeded directory, and report briefly what the {n} changes are. No network is available; do not install anything. Do not commit anything in git.""")
