#!/usr/bin/env python3
"""Confirm a seeded change independently and file it under /verif/seeded/<id>/.

    python3 tools_confirm_seed.py <scratch worktree> <dir with patch.diff demo.py meta.json> [...]

In the scratch worktree (never /repo): clean tree -> demo must exit 0; apply patch -> demo must
exit non-zero; the repository's own test suite must still pass with the patch.  Only then is
the change copied to /verif/seeded/<id>/ with the evidence of what was run.
"""
import json
import os
import shutil
import subprocess
import sys

HERE = os.path.dirname(os.path.abspath(__file__))


def sh(cmd, cwd=None, env=None, timeout=1800):
    return subprocess.run(cmd, shell=True, capture_output=True, text=True, cwd=cwd, env=env, timeout=timeout)


def main():
    wt = os.path.abspath(sys.argv[1])
    assert not wt.startswith("/repo") and not wt.startswith("/verif")
    env = dict(os.environ, PYTHONPATH=wt, PYTHONDONTWRITEBYTECODE="1")
    for d in sys.argv[2:]:
        d = os.path.abspath(d)
        sid = os.path.basename(d.rstrip("/"))
        meta = json.load(open(os.path.join(d, "meta.json")))
        sh("git checkout -- . ", cwd=wt)
        where = sh("/venv/bin/python -c 'import geoh5py; print(geoh5py.__file__)'", env=env).stdout.strip()
        assert where.startswith(wt), where
        clean = sh(f"/venv/bin/python {d}/demo.py", cwd=wt, env=env)
        ap = sh(f"git apply --whitespace=nowarn {d}/patch.diff", cwd=wt)
        if ap.returncode != 0:
            print(f"{sid}: patch does not apply: {ap.stderr[:200]}")
            continue
        try:
            mut = sh(f"/venv/bin/python {d}/demo.py", cwd=wt, env=env)
            tests = sh("/venv/bin/python -m pytest -q -p no:cacheprovider --timeout=900 tests 2>&1 | tail -1", cwd=wt, env=env)
        finally:
            sh("git checkout -- .", cwd=wt)
        summary = tests.stdout.strip()
        ok = clean.returncode == 0 and mut.returncode != 0 and " passed" in summary and "failed" not in summary and "error" not in summary.lower()
        print(f"{sid}: demo clean rc={clean.returncode} mutant rc={mut.returncode} tests: {summary} -> {'CONFIRMED' if ok else 'REJECTED'}")
        if not ok:
            continue
        dst = os.path.join(HERE, "seeded", sid)
        os.makedirs(dst, exist_ok=True)
        for f in ("patch.diff", "demo.py"):
            shutil.copy(os.path.join(d, f), os.path.join(dst, f))
        meta["confirmed_by_main_session"] = {
            "worktree": "scratch git worktree of /repo under /tmp (removed afterwards)",
            "demo_clean_rc": clean.returncode,
            "demo_mutant_rc": mut.returncode,
            "demo_mutant_output_tail": (mut.stdout + mut.stderr)[-400:],
            "repo_tests_with_change": summary,
            "commands": [
                "PYTHONPATH=<wt> /venv/bin/python demo.py   (clean tree, then with patch applied)",
                "PYTHONPATH=<wt> /venv/bin/python -m pytest -q -p no:cacheprovider --timeout=900 tests   (with patch applied)",
            ],
        }
        json.dump(meta, open(os.path.join(dst, "meta.json"), "w"), indent=1)


if __name__ == "__main__":
    main()
